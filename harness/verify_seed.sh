#!/bin/sh
# maintenance: verify_seed.sh <ID> [<srcdir>]  - confirm a seeded change independently in a scratch worktree, then file it under /verif/seeded/<ID>/
id=$1; src=${2:-/tmp/seeded-out/$id}; name=${3:-$id}
wt=/tmp/wt/v-$name
git -C /repo worktree remove --force $wt 2>/dev/null
git -C /repo worktree add -f $wt HEAD >/dev/null 2>&1 || exit 2
cd $wt
PYTHONPATH=$wt /venv/bin/python $src/demo.py > /tmp/v-$name.clean.log 2>&1; c0=$?
git apply $src/patch.diff || { echo "patch does not apply"; exit 2; }
PYTHONPATH=$wt /venv/bin/python $src/demo.py > /tmp/v-$name.mut.log 2>&1; c1=$?
PYTHONPATH=$wt /venv/bin/python -m pytest -q -p no:cacheprovider --timeout=900 -n 8 2>&1 | tail -4 > /tmp/v-$name.tests.log
echo "demo clean=$c0 mutated=$c1"; cat /tmp/v-$name.tests.log
cd /; git -C /repo worktree remove --force $wt
mkdir -p /verif/seeded/$name; cp $src/patch.diff $src/demo.py $src/meta.json /verif/seeded/$name/
